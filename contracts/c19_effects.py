"""Bounded stand-in of C19 at the level of *effects*: for options whose effect is visible in an answer, the answer after
initialisation and again after the document was changed (a re-parse in the server process) is the same whether the value
came from the command line or from the configuration file, and with both the file wins.  Every server runs in an interpreter
of its own (several options live in module-level state).

usage as a script (one run, prints the two answers as JSON):  python c19_effects.py <argv json> <config json|null> <request json>
"""
from __future__ import annotations

import json
import os
import subprocess
import sys

EFFECT_SRC = ("module em\n  implicit none\n  type :: et\n    integer :: ec\n  end type et\ncontains\n  subroutine es(x, n)\n    real, intent(in), dimension(3), optional :: x\n"
              "    integer, intent(in) :: n\n    print *, sin(x)\n    " + "y = " + "1 + " * 30 + "1\n  end subroutine es\nend module em\n")
# option -> (value that differs from the default, request whose answer shows the option)
EFFECT_OPTIONS = {
    "sort_keywords": (True, ("hover", 7, ":: x+3")),
    "lowercase_intrinsics": (True, ("completion", 9, "si+2")),
    "max_line_length": (60, ("diagnostics", 0, "")),
    "symbol_skip_mem": (True, ("documentSymbol", 0, "")),
    "autocomplete_no_snippets": (True, ("completion", 9, "si+2")),
    "autocomplete_name_only": (True, ("completion", 9, "si+2")),
}


def answers(argv, cfg, req):
    from replay.harness import Workspace, make_server, parse_out
    from fortls.jsonrpc import path_to_uri
    files = {"e.f90": EFFECT_SRC}
    if cfg is not None:
        files[".fortlsrc"] = json.dumps(cfg)
    ws = Workspace(files)
    try:
        srv, rw = make_server(tuple(argv))
        srv.nthreads = 1
        srv.handle({"jsonrpc": "2.0", "id": 0, "method": "initialize", "params": {"rootUri": path_to_uri(ws.root), "rootPath": ws.root}})
        uri = ws.uri("e.f90")
        out = []
        for phase in ("after initialize", "after didChange"):
            if phase == "after didChange":
                srv.handle({"jsonrpc": "2.0", "method": "textDocument/didChange",
                            "params": {"textDocument": {"uri": uri}, "contentChanges": [{"text": EFFECT_SRC + "\n"}]}})
            rw.out.clear()
            kind, ln, ch = req
            if ch:
                tok, _, off = ch.partition("+")
                ch = EFFECT_SRC.split("\n")[ln].index(tok) + int(off)
            if kind == "diagnostics":
                srv.handle({"jsonrpc": "2.0", "method": "textDocument/didSave", "params": {"textDocument": {"uri": uri}}})
                got = [m["params"]["diagnostics"] for m in parse_out(rw.out) if m.get("method") == "textDocument/publishDiagnostics"]
            else:
                params = {"textDocument": {"uri": uri}}
                if kind != "documentSymbol":
                    params["position"] = {"line": ln, "character": ch}
                srv.handle({"jsonrpc": "2.0", "id": 7, "method": "textDocument/" + kind, "params": params})
                got = [m.get("result") for m in parse_out(rw.out) if m.get("id") == 7]
            out.append(json.dumps(got, sort_keys=True).replace(ws.root, "<root>"))
        return out
    finally:
        ws.close()


def isolated(argv, cfg, req):
    env = dict(os.environ, PYTHONPATH=os.pathsep.join(p for p in sys.path if p))
    r = subprocess.run([sys.executable, os.path.abspath(__file__), json.dumps(list(argv)), json.dumps(cfg), json.dumps(list(req))],
                       capture_output=True, text=True, env=env, timeout=300)
    if r.returncode != 0:
        raise RuntimeError(f"option-effect subprocess failed: {r.stderr[-600:]}")
    return json.loads(r.stdout.strip().split("\n")[-1])


def run():
    import concurrent.futures as cf
    jobs = {}
    for opt, (val, req) in EFFECT_OPTIONS.items():
        flag = [f"--{opt}"] + ([str(val)] if not isinstance(val, bool) else [])
        default_val = False if isinstance(val, bool) else -1
        jobs[(opt, "base")] = ([], None, req)
        jobs[(opt, "cli")] = (flag, None, req)
        jobs[(opt, "file")] = ([], {opt: val}, req)
        jobs[(opt, "both")] = (flag, {opt: default_val}, req)
    with cf.ThreadPoolExecutor(max_workers=8) as ex:
        res = dict(zip(jobs, ex.map(lambda a: isolated(*a), jobs.values())))
    for opt, (val, req) in EFFECT_OPTIONS.items():
        base, cli, fil, both = (res[(opt, k)] for k in ("base", "cli", "file", "both"))
        if cli == base:
            return {"option": opt, "problem": "the probe does not observe this option (answers equal the default's)"}, len(jobs)
        if fil != cli:
            k = 0 if fil[0] != cli[0] else 1
            return {"option": opt, "value": val, "phase": ["after initialize", "after didChange"][k], "request": list(req),
                    "problem": "the value from the configuration file does not have the effect it has from the command line",
                    "answer_command_line": cli[k][:300], "answer_file": fil[k][:300]}, len(jobs)
        if both != base:
            k = 0 if both[0] != base[0] else 1
            return {"option": opt, "phase": ["after initialize", "after didChange"][k], "request": list(req),
                    "problem": "the file's value does not win over the command line's",
                    "answer_file_value_alone": base[k][:300], "answer_both": both[k][:300]}, len(jobs)
    return None, len(jobs)


if __name__ == "__main__":
    sys.path[:0] = [os.path.dirname(os.path.dirname(os.path.abspath(__file__)))]
    import logging
    logging.disable(logging.CRITICAL)
    print(json.dumps(answers(json.loads(sys.argv[1]), json.loads(sys.argv[2]), json.loads(sys.argv[3]))))
