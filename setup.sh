#!/bin/bash
# Offline setup: nothing to build. pyvc is pure python (run with /venv/bin/python, PYTHONPATH=/repo) and
# drives the pre-installed solver binaries.  This script only verifies that they are present.
set -e
cd "$(dirname "$0")"
mkdir -p .work evidence replays
for t in z3-new cvc5; do command -v $t >/dev/null || { echo "missing solver: $t" >&2; exit 1; }; done
/venv/bin/python -c "import ast, json, re; print('python ok')"
echo '(set-logic ALL)(declare-fun s () String)(assert (= (str.len s) 2))(check-sat)' > .work/_t.smt2
z3-new .work/_t.smt2 | grep -q '^sat' && cvc5 --strings-exp .work/_t.smt2 | grep -q '^sat' && echo "solvers ok"
rm -f .work/_t.smt2
